"""C03 - control streams round-trip losslessly; edits touch only what changed.

(1) parser round trip: every text of the bounded record-token spaces (record name abbreviations x token sequences x
    layout separators x line endings) is parsed and printed; accepted texts must be reproduced byte for byte;
(2) whole control streams: a valid base model whose records are replaced, one and two at a time, by layout variants;
    the code regenerated from the unmodified model must equal the input;
(3) frame: for every single-component edit of a menu, every record outside the edit's declared footprint must appear
    unchanged and in the same order.
"""
from __future__ import annotations

import itertools

PROPERTY = "C03"
LEVEL = "model_checking"
ENGINE = "enumx"
PREIMPORT = ("pharmpy.modeling",)
TECHNIQUE = "bounded exhaustive enumeration of control-stream texts (record token sequences x layout) with byte-for-byte and frame oracles"
LEVEL_TEXT = ("Every text of the generated token/layout spaces is parsed and printed; equality is byte for byte.  Layout-sensitive "
              "defects (lost whitespace, comment, continuation, abbreviation) have witnesses of a few tokens, which the enumeration covers exhaustively.")
LEVEL_NOTE = "trusted: the generators and the footprint table of the edit menu in this file; equality of strings"
RULE = ("(1) texts = record name variant + <= k tokens of the record's alphabet joined by separators from {' ','  ','\\t','\\n ', ' &\\n'} with endings "
        "{'\\n','','\\r\\n',' ;c\\n'}; (2) base model with 1-2 records replaced by variants; (3) edit menu x corpus; non-trivial = accepted by the parser")
ASSUMPTIONS = ["a text the parser refuses (exception) is counted, not failed",
               "the footprint of an edit is the set of record kinds that express the edited component (table EDITS)"]
BOUNDS = {"quick": "k<=3 tokens, 3 separators; record-variant singles and pairs; 14 edits x 3 models", "thorough": "k<=4 tokens, 5 separators; triples"}

SEPS_Q = [" ", "\n", "  "]
SEPS_T = [" ", "\n", "  ", "\t", " &\n"]
ENDS = ["\n", "", "\r\n", " ;c\n"]

RECORD_TOKENS = {
    "THETA": (["$THETA", "$THE", "$THTA"], ["1", "(0,1)", "(0,1,2)", "FIX", "(1 FIX)", "-INF", "(0,1) ; TVCL", "1.5E-3"]),
    "OMEGA": (["$OMEGA", "$OME"], ["0.1", "BLOCK(2)", "SAME", "FIX", "0.01", "DIAGONAL(2)", "(0.1 SD)", "; IIV"]),
    "SIGMA": (["$SIGMA", "$SIG"], ["0.1", "BLOCK(1)", "FIX", "1 FIX"]),
    "INPUT": (["$INPUT", "$INP", "$INPT"], ["ID", "TIME", "DV=DROP", "DROP", "X=Y", "AMT"]),
    "DATA": (["$DATA", "$INFILE", "$DAT"], ["file.csv", "IGNORE=@", "IGNORE=(X.EQ.1)", "NULL=0", "'my file.csv'", "IGN(X.GT.2)"]),
    "ESTIMATION": (["$ESTIMATION", "$EST", "$ESTM", "$ESTIM"], ["METHOD=1", "INTER", "MAXEVAL=999", "NOABORT", "PRINT=1", "METH=COND"]),
    "SUBROUTINES": (["$SUBROUTINES", "$SUBS", "$SUB", "$SUBROUTINE"], ["ADVAN1", "TRANS2", "TOL=5", "ADVAN=ADVAN6"]),
    "PK": (["$PK", "$PRED", "$ERROR", "$ERR", "$DES"], ["CL=THETA(1)", "IF (X.EQ.1) Y=2", "; c", "V = 1+ETA(1)", "IF (A.GT.1) THEN", "ENDIF", "\" verbatim"]),
    "PROBLEM": (["$PROBLEM", "$PROB"], ["some", "text", "; not a comment?", "$x"]),
    "TABLE": (["$TABLE", "$TAB"], ["ID", "TIME", "NOPRINT", "FILE=tab", "ONEHEADER", "NOAPPEND"]),
    "UNKNOWN": (["$FOO", "$SIZES", "$ABBR", "$MODEL", "$COVARIANCE", "$COV", "$SIM", "$ETAS"], ["REPLACE A=B", "LTH=50", "COMP=(CENTRAL)", "(1) ONLYSIM", "UNCONDITIONAL", "x"]),
}


def texts(tier):
    k = 3 if tier == "quick" else 4
    seps = SEPS_Q if tier == "quick" else SEPS_T
    for kind, (names, toks) in RECORD_TOKENS.items():
        for name in names:
            for n in range(0, k + 1):
                for seq in itertools.product(toks, repeat=n):
                    if n > 2 and len(set(seq)) < n - 1:
                        continue
                    for sepc in itertools.product(seps, repeat=max(0, n)):
                        # thin out: at most one non-space separator for n >= 3
                        if n >= 3 and sum(1 for s in sepc if s != " ") > 1:
                            continue
                        body = name
                        for s, t in zip(sepc, seq):
                            body += s + t
                        for e in ENDS:
                            yield kind, body + e
    # text before the first record, empty stream
    for pre in ("", "\n", "; leading comment\n", "garbage line\n", "  \n"):
        yield "PRE", pre + "$PROBLEM x\n$INPUT ID DV\n"
    # white space in front of the $ of a record name (legal; it belongs to the text that must be reproduced)
    for kind, (names, toks) in RECORD_TOKENS.items():
        for name in names[:2]:
            for ind in ("  ", "\t", " "):
                for tok in toks[:3]:
                    yield kind, "$PROBLEM x\n" + ind + name + " " + tok + "\n$INPUT ID DV\n"
                    yield kind, ind + name + " " + tok + "\n"


BASE = [
    ("PROBLEM", "$PROBLEM base model\n"),
    ("INPUT", "$INPUT ID TIME AMT WGT APGR DV\n"),
    ("DATA", "$DATA pheno.dta IGNORE=@\n"),
    ("SUBROUTINES", "$SUBROUTINE ADVAN1 TRANS2\n"),
    ("PK", "$PK\nCL = THETA(1)*EXP(ETA(1))\nV = THETA(2)*EXP(ETA(2))\nS1 = V\n"),
    ("ERROR", "$ERROR\nY = F + F*EPS(1)\n"),
    ("THETA", "$THETA (0,0.005) ; TVCL\n"),
    ("THETA2", "$THETA (0,1.0) ; TVV\n"),
    ("OMEGA", "$OMEGA 0.03\n"),
    ("OMEGA2", "$OMEGA 0.03\n"),
    ("SIGMA", "$SIGMA 0.01\n"),
    ("ESTIMATION", "$ESTIMATION METHOD=1 INTERACTION\n"),
]
VARIANTS = {
    "PROBLEM": ["$PROB  base   model  \n", "$PROBLEM base ; model\n", "$PROBLEM\n"],
    "INPUT": ["$INPUT ID TIME AMT WGT\n       APGR DV\n", "$INP ID  TIME AMT WGT APGR DV ; cols\n", "$INPUT ID TIME AMT WGT APGR DV\n\n"],
    "DATA": ["$DATA  pheno.dta   IGNORE=@  \n", "$INFILE pheno.dta IGNORE=@\n", "$DATA pheno.dta\n  IGNORE=@\n"],
    "SUBROUTINES": ["$SUBS ADVAN1 TRANS2\n", "$SUBROUTINES  ADVAN1  TRANS2\n", "$SUB ADVAN1 TRANS2 ; comment\n"],
    "PK": ["$PK\n; a comment\nCL = THETA(1)*EXP(ETA(1))\n\nV = THETA(2)*EXP(ETA(2)) ; volume\nS1 = V\n",
           "$PK\n  CL=THETA(1)*EXP(ETA(1))\n  V=THETA(2)*EXP(ETA(2))\n  S1=V\n",
           "$PK CL = THETA(1)*EXP(ETA(1))\nV = THETA(2) * &\n  EXP(ETA(2))\nS1 = V\n"],
    "ERROR": ["$ERROR\nIPRED = F\nY = IPRED + IPRED*EPS(1)\n", "$ERR\nY=F+F*EPS(1) ; prop\n", "$ERROR\n\nY = F + F*EPS(1)\n\n"],
    "THETA": ["$THETA  (0, 0.005)  ; TVCL\n", "$THE (0,.005)\n", "$THETA (0,5E-3) ; TVCL\n; trailing comment\n"],
    "OMEGA": ["$OMEGA  0.03  ; IIV\n", "$OME .03\n", "$OMEGA 3E-2\n"],
    "SIGMA": ["$SIGMA  0.01\n", "$SIG 1E-2 ; ruv\n", "$SIGMA 0.01\n\n"],
    "ESTIMATION": ["$EST METHOD=1 INTER\n", "$ESTM METH=COND INTER MAXEVAL=9999\n", "$ESTIMATION METHOD=1 INTERACTION ; est\n$COVARIANCE\n",
                   "$ESTIMATION METHOD=1 INTERACTION\n$TABLE ID TIME DV NOPRINT FILE=tab1\n", "$ESTIMATION METHOD=1 INTERACTION\n$FOO bar\n"],
}


COMBOS = [
    {"THETA": "$THETA (0,0.005) ; TVCL\n (0,1.0) ; TVV\n", "THETA2": ""},
    {"THETA": "$THETA (0,0.005) (0,1.0)\n", "THETA2": ""},
    {"OMEGA": "$OMEGA 0.03 0.03\n", "OMEGA2": ""},
    {"OMEGA": "$OMEGA (0.03)x2\n", "OMEGA2": ""},
    {"OMEGA": "$OMEGA BLOCK(2) 0.03 0.001 0.03\n", "OMEGA2": ""},
    {"OMEGA": "$OMEGA DIAGONAL(2) 0.03 0.03 ; both\n", "OMEGA2": ""},
    {"OMEGA": "$OMEGA 0.03 ; IIV_CL\n 0.03 ; IIV_V\n", "OMEGA2": ""},
    {"OMEGA": "$OMEGA BLOCK(1) 0.03\n", "OMEGA2": "$OMEGA BLOCK(1) SAME\n"},
    {"SIGMA": "$SIGMA 0.01 FIX\n"},
    # a value after a repeated item (the third eta / second epsilon is not used by the code)
    {"OMEGA": "$OMEGA (0.03)x2 0.05\n", "OMEGA2": ""},
    {"SIGMA": "$SIGMA (0.01)x2 0.3\n"},
    {"THETA": "$THETA (0.005 FIX) ; TVCL\n"},
]


INDENTED = [{"THETA": "  $THETA (0,0.005) ; TVCL\n"}, {"OMEGA": "\t$OMEGA 0.03\n"}, {"ESTIMATION": " $ESTIMATION METHOD=1 INTERACTION\n"},
            {"ERROR": "  $ERROR\nY = F + F*EPS(1)\n"}]
PRE_RECORDS = ["$SIZES LTH=120 PD=-80\n", "$SIZES PC=35 LVR=40\n", "$SIZES DIMNEW=-10000\n", "$SIZES LTH=50 ; more thetas\n",
               "$SIZES PD=-80\n$SIZES LTH=120 LVR=40\n"]


def streams(tier):
    """(label, text) - the base stream with 1..r records replaced by a variant"""
    keys = [k for k, _ in BASE]
    yield "base", "".join(t for _, t in BASE)
    r = 2 if tier == "quick" else 3
    vkeys = [k for k in keys if k in VARIANTS]
    for n in range(1, r + 1):
        for combo in itertools.combinations(vkeys, n):
            for choice in itertools.product(*[range(len(VARIANTS[k])) for k in combo]):
                sub = dict(zip(combo, choice))
                txt = "".join(VARIANTS[k][sub[k]] if k in sub else t for k, t in BASE)
                yield "+".join(f"{k}{sub[k]}" for k in combo), txt
    for pre in ("; header comment\n", "\n\n", "Some free text\n"):
        yield "pre", pre + "".join(t for _, t in BASE)
    # indented record names
    for i, sub in enumerate(INDENTED):
        yield f"indent{i}", "".join(sub.get(k, t) for k, t in BASE)
    # records in front of $PROBLEM (they belong to no problem)
    for i, pre in enumerate(PRE_RECORDS):
        yield f"prerec{i}", pre + "".join(t for _, t in BASE)
        for k2 in ("THETA", "ESTIMATION"):
            yield f"prerec{i}+{k2}0", pre + "".join(VARIANTS[k2][0] if k == k2 else t for k, t in BASE)
    # several values in one parameter record (replacing two records of the base)
    for i, combo in enumerate(COMBOS):
        yield f"combo{i}", "".join(combo.get(k, t) for k, t in BASE)
        for k2 in ("PK", "ESTIMATION", "INPUT"):
            for j, v in enumerate(VARIANTS[k2][:2]):
                yield f"combo{i}+{k2}{j}", "".join(combo.get(k, v if k == k2 else t) for k, t in BASE)


# an estimation step object carries its method/options, the uncertainty method and the requested predictions/residuals:
# it is expressed by $ESTIMATION, $COVARIANCE and $TABLE together
EXEC = {"ESTIMATION", "COVARIANCE", "TABLE"}
EDITS = {
    # label: (callable(model) -> model, footprint = record name prefixes allowed to change)
    "theta_init": (lambda pm, m: pm.set_initial_estimates(m, {_theta(m, 0): 0.006}), {"THETA"}),
    "theta_fix": (lambda pm, m: pm.fix_parameters(m, [_theta(m, 1)]), {"THETA"}),
    "theta_bounds": (lambda pm, m: pm.set_upper_bounds(m, {_theta(m, 0): 10.0}), {"THETA"}),
    "omega_init": (lambda pm, m: pm.set_initial_estimates(m, {_omega(m, 0): 0.05}), {"OMEGA"}),
    "sigma_init": (lambda pm, m: pm.set_initial_estimates(m, {_sigma(m, 0): 0.02}), {"SIGMA"}),
    "description": (lambda pm, m: pm.set_description(m, "another title"), {"PROBLEM"}),
    "est_method": (lambda pm, m: pm.set_estimation_step(m, "FO", idx=0), EXEC),
    "est_option": (lambda pm, m: pm.append_estimation_step_options(m, {"SIGL": 9}, 0), EXEC),
    "add_theta": (lambda pm, m: pm.add_population_parameter(m, "POP_NEW", 2.0), {"THETA"}),
    "cov_step": (lambda pm, m: pm.add_parameter_uncertainty_step(m, "SANDWICH"), EXEC),
    "remove_cov_step": (lambda pm, m: pm.remove_parameter_uncertainty_step(m), EXEC),
    "additive_error": (lambda pm, m: pm.set_additive_error_model(m), {"ERROR", "SIGMA", "THETA"}),
    "remove_iiv": (lambda pm, m: pm.remove_iiv(m, m.random_variables.iiv.names[-1]), {"PK", "PRED", "OMEGA", "ABBREVIATED"}),
    "statement": (lambda pm, m: _change_statement(m), {"PK", "PRED"}),
    # used in sequences on the models with block IFs (see SEQ_EDITS)
    "est_front": (lambda pm, m: pm.add_estimation_step(m, "FO", idx=0), EXEC),
    "rename_blockvar": (lambda pm, m: pm.rename_symbols(m, {"TVO": "TVOL"}), {"PK", "PRED"}),
    "lag_time": (lambda pm, m: pm.add_lag_time(m), {"PK", "THETA"}),
}


def _theta(m, i):
    rv = set(m.random_variables.parameter_names)
    return [p.name for p in m.parameters if p.name not in rv][i]


def _omega(m, i):
    return m.random_variables.etas.parameter_names[i]


def _sigma(m, i):
    return m.random_variables.epsilons.parameter_names[i]


def _change_statement(m):
    from pharmpy.basic import Expr
    from pharmpy.model import Assignment

    sts = list(m.statements)
    for i, s in enumerate(sts):
        if hasattr(s, "symbol") and str(s.symbol) in ("S1", "V", "VC"):
            sts[i] = Assignment.create(s.symbol, s.expression * Expr.integer(2))
            break
    from pharmpy.model import Statements

    return m.replace(statements=Statements(sts)).update_source()


CODE_MODELS = {
    "blockif2": {"PK": "$PK\n; typical values\nTCL = THETA(1)\nTVO = THETA(2)\nIF (WGT.GT.70) THEN\n  TCL = TCL*1.2\n  TVO = TVO*1.1\n"
                       "END IF\n; individual parameters\nCL = TCL*EXP(ETA(1))\n\"  ICALL_SEEN = 1\nV = TVO*EXP(ETA(2))\n; scaling\nS1 = V\n"},
    "blockif3": {"PK": "$PK\nTCL = THETA(1)\nTVO = THETA(2)\nIF (APGR.LT.5) THEN\n  TCL = TCL*0.8\n  TVO = TVO*0.9\nELSE\n  TVO = TVO*1.05\nEND IF\n"
                       "\"  FIRST_SEEN = 1\n; individual parameters\nCL = TCL*EXP(ETA(1))\nV = TVO*EXP(ETA(2))\nS1 = V\n",
                 "ERROR": "$ERROR\n; residual error\nIPRED = F\nW = IPRED\n; the observation\nY = IPRED + W*EPS(1)\n"},
}
SEQ_EDITS = ["statement", "rename_blockvar", "lag_time", "remove_iiv", "additive_error", "add_theta"]


def corpus():
    import os

    d = "/repo/src/pharmpy/internals/example_models/"
    repo = os.environ.get("VERIF_REPO", "/repo")
    d = os.path.join(repo, "src/pharmpy/internals/example_models/")
    t = os.path.join(repo, "tests/testdata/nonmem/")
    out = {"pheno": d + "pheno.mod", "base": None, "pheno_real": t + "pheno_real.mod", "mox2": t + "models/mox2.mod"}
    for i in range(len(COMBOS)):
        out[f"combo{i}"] = ("text", "".join(COMBOS[i].get(k, tt) for k, tt in BASE))
    for i in (0, 1):
        out[f"prerec{i}"] = ("text", PRE_RECORDS[i] + "".join(tt for _, tt in BASE))
    for nm, sub in CODE_MODELS.items():
        out[nm] = ("text", "".join(sub.get(k, tt) for k, tt in BASE))
    out["indent"] = ("text", "".join({**INDENTED[0], **INDENTED[1], **INDENTED[3]}.get(k, tt) for k, tt in BASE))
    return out


def shards(tier):
    out = []
    n = 0
    chunk = []
    for item in texts(tier):
        chunk.append(item)
        if len(chunk) >= 4000:
            out.append(("texts", chunk))
            chunk = []
    if chunk:
        out.append(("texts", chunk))
    st = list(streams(tier))
    for i in range(0, len(st), 12):
        out.append(("streams", st[i:i + 12]))
    for name in corpus():
        for e in EDITS:
            if e in ("rename_blockvar", "lag_time") and name not in CODE_MODELS:
                continue
            out.append(("edit", name, e))
    # an edit of the execution steps followed by an unrelated edit (the second generation sees what the first left as baseline)
    for name in ("base", "pheno"):
        for a in ("cov_step", "remove_cov_step", "est_method", "est_option", "est_front"):
            for b in ("theta_init", "description", "est_option"):
                if a != b:
                    out.append(("edit", name, a + "+" + b))
    # two edits in sequence on the same object (the second works on what the first left in the record caches)
    for name in CODE_MODELS:
        for a, b in itertools.permutations(SEQ_EDITS, 2):
            out.append(("edit", name, a + "+" + b))
    out.sort(key=lambda s: 0 if s[0] != "texts" else 1)
    return out


def _corpus_model(path):
    from pharmpy.modeling import read_model, read_model_from_string

    if path is None:
        return read_model_from_string("".join(t for _, t in BASE))
    if isinstance(path, tuple):
        return read_model_from_string(path[1])
    return read_model(path)


def split_records(code):
    """list of (canonical name, text) by the parser itself (record strings concatenate to the code)"""
    from pharmpy.model.external.nonmem.nmtran_parser import NMTranParser

    cs = NMTranParser().parse(code)
    return [(getattr(r, "name", "?"), str(r)) for r in cs.records]


def run_shard(shard, tier):
    import warnings

    res = {"states": 0, "transitions": 0, "evaluations": 0, "distinct_nontrivial": 0, "violations": [], "samples": [],
           "outcomes": {}, "traces_validated_against_impl": 0}

    def note(k):
        res["outcomes"][k] = res["outcomes"].get(k, 0) + 1

    kind = shard[0]
    if kind == "texts":
        from pharmpy.model.external.nonmem.nmtran_parser import NMTranParser

        for rk, t in shard[1]:
            res["states"] += 1
            res["transitions"] += 1
            res["evaluations"] += 1
            try:
                out = str(NMTranParser().parse(t))
            except Exception as e:
                note(f"refused:{rk}")
                continue
            res["distinct_nontrivial"] += 1
            res["traces_validated_against_impl"] += 1
            if out != t:
                note("roundtrip-mismatch")
                if len(res["violations"]) < 30:
                    res["violations"].append({"kind": "text", "text": t, "what": f"[{t!r}] parse/print gives {out!r}", "class": f"text:{rk}"})
            else:
                note("ok")
        res["samples"].append(shard[1][0][1])
        return res
    from pharmpy.modeling import read_model, read_model_from_string
    import pharmpy.modeling as pm

    if kind == "streams":
        for label, t in shard[1]:
            res["states"] += 1
            res["transitions"] += 1
            res["evaluations"] += 1
            with warnings.catch_warnings():
                warnings.simplefilter("ignore")
                try:
                    m = read_model_from_string(t)
                except Exception as e:
                    note("refused:stream")
                    continue
                res["distinct_nontrivial"] += 1
                fails = []
                try:
                    if m.code != t:
                        fails.append(("code-of-unmodified-model", _first_diff(t, m.code)))
                    else:
                        c2 = m.update_source().code
                        if c2 != t:
                            fails.append(("update_source-of-unmodified-model", _first_diff(t, c2)))
                except Exception as e:
                    fails.append(("update_source-raises", f"{type(e).__name__}: {str(e)[:100]}"))
            note("ok" if not fails else "mismatch")
            for cls, d in fails[:10]:
                res["violations"].append({"kind": "stream", "label": label, "text": t, "what": f"[variant {label}] {cls}: {d}", "class": f"stream:{cls}"})
        res["samples"].append(shard[1][0][0])
        return res
    # frame check
    _, name, e = shard
    path = corpus()[name]
    with warnings.catch_warnings():
        warnings.simplefilter("ignore")
        try:
            m = _corpus_model(path)
        except Exception as ex:
            note("corpus-unreadable")
            return res
        res["states"] += 1
        res["transitions"] += 1
        res["evaluations"] += 1
        footprint = set()
        before = m.code
        try:
            m2 = m
            for part in e.split("+"):  # "a+b": two edits in sequence on the same object (no re-read in between)
                f, fp = EDITS[part]
                footprint |= set(fp)
                m2 = f(pm, m2)
            # .code prints the control stream as it is; some edits leave generating it to the caller
            m2 = m2.update_source()
            after = m2.code
        except Exception as ex:
            note(f"edit-refused:{type(ex).__name__}")
            return res
    res["distinct_nontrivial"] += 1
    fails = frame_check(before, after, footprint) + comment_lines_check(before, after)
    # the edited model is an unmodified model from now on: generating its code again changes nothing
    try:
        with warnings.catch_warnings():
            warnings.simplefilter("ignore")
            again = m2.update_source().code
        if again != after:
            fails.append("regenerating the code of the edited (now unmodified) model changes it: " + _first_diff(after, again))
    except Exception as ex:
        fails.append(f"regenerating the code of the edited model raises {type(ex).__name__}: {str(ex)[:80]}")
    note("ok" if not fails else "frame-violation")
    for d in fails[:10]:
        res["violations"].append({"kind": "edit", "model": name, "edit": e, "what": f"[{name}: {e}] {d}", "class": f"edit:{e}:{d[:40]}"})
    res["samples"].append(f"{name}: {e}")
    return res


def _first_diff(a, b):
    i = 0
    while i < min(len(a), len(b)) and a[i] == b[i]:
        i += 1
    return f"first difference at offset {i}: expected {a[max(0, i - 15):i + 25]!r}, got {b[max(0, i - 15):i + 25]!r}"


def frame_check(before, after, footprint):
    """every record of `before` outside the footprint must occur unchanged, in order, in `after`"""
    rb = split_records(before)
    try:
        ra = split_records(after)
    except Exception as e:
        return [f"the code generated after the edit cannot be parsed: {type(e).__name__}: {str(e)[:80]}"]
    fails = []
    keep = [(n, t) for n, t in rb if not any(n.startswith(f) or f.startswith(n) for f in footprint)]
    texts_after = [t for _, t in ra]
    j = 0
    for n, t in keep:
        try:
            k = texts_after.index(t, j)
            j = k + 1
        except ValueError:
            # present but reordered?
            if t in texts_after:
                fails.append(f"record ${n} is unchanged but moved relative to other untouched records")
            else:
                cand = [x for nn, x in ra if nn == n]
                fails.append(f"record ${n} (not expressing the edited component) changed: {t!r} -> {cand[:1]!r}")
    return fails


def comment_lines_check(before, after):
    """inside the abbreviated-code records every comment-only line and every verbatim line of `before` occurs in `after`,
    in the same order (they express no model component, so no edit may drop, duplicate or move them)"""
    def special(code):
        out = []
        incode = False
        for ln in code.splitlines():
            st = ln.strip()
            if st.startswith("$"):
                incode = st[1:4].upper() in ("PK", "PK\n", "PRE", "ERR", "DES") or st[1:3].upper() == "PK"
                continue
            if incode and (st.startswith(";") or st.startswith('"')):
                out.append(ln.rstrip())
        return out

    b, a = special(before), special(after)
    fails = []
    j = 0
    for ln in b:
        try:
            j = a.index(ln, j) + 1
        except ValueError:
            fails.append(f"comment/verbatim line {ln!r} of a code record is " + ("moved" if ln in a else "lost") + " by the edit")
    if not fails and len(a) > len(b):
        extra = [ln for ln in a if a.count(ln) > b.count(ln)]
        if extra:
            fails.append(f"comment/verbatim line {extra[0]!r} of a code record is duplicated by the edit")
    return fails[:3]


def replay(w):
    import warnings

    import pharmpy.modeling as pm
    from pharmpy.model.external.nonmem.nmtran_parser import NMTranParser
    from pharmpy.modeling import read_model, read_model_from_string

    with warnings.catch_warnings():
        warnings.simplefilter("ignore")
        if w["kind"] == "text":
            out = str(NMTranParser().parse(w["text"]))
            return [] if out == w["text"] else [f"parse/print gives {out!r}"]
        if w["kind"] == "stream":
            m = read_model_from_string(w["text"])
            if m.code != w["text"]:
                return ["code of unmodified model: " + _first_diff(w["text"], m.code)]
            c2 = m.update_source().code
            return [] if c2 == w["text"] else ["update_source: " + _first_diff(w["text"], c2)]
        m = _corpus_model(corpus()[w["model"]])
        footprint = set()
        m2 = m
        for part in w["edit"].split("+"):
            f, fp = EDITS[part]
            footprint |= set(fp)
            m2 = f(pm, m2)
        m2 = m2.update_source()
        fails = frame_check(m.code, m2.code, footprint) + comment_lines_check(m.code, m2.code)
        again = m2.update_source().code
        if again != m2.code:
            fails.append("regenerating the code of the edited (now unmodified) model changes it: " + _first_diff(m2.code, again))
        return fails


def classify(w):
    from checks import c03_patterns

    return c03_patterns.classify(w)
