"""C09 - model extensions implement their documented formulas and are neutral at the reference point.

Exhaustive enumeration of (state, extension, argument tuple) over the extension alphabet; every
extension is probed numerically: the individual parameter / observation of the extended model is
evaluated (vlib.ireval) at covariate, eta and epsilon values chosen by the harness and compared with
the documented formula applied to the value from the unextended model.
"""
from __future__ import annotations

import itertools
import math

PROPERTY = "C09"
LEVEL = "model_checking"
ENGINE = "seqx"
PREIMPORT = ("pharmpy.modeling", "pharmpy.tools")
TECHNIQUE = ("exhaustive enumeration of (model, extension, parameter, covariate, effect, operation) tuples on real objects; "
             "numeric probing of the extended model against the documented formula")
LEVEL_TEXT = ("Every combination of the extension alphabet on every state is applied; the documented formula (transcribed from the "
              "docstrings) is the reference model and is compared at several probe points including the reference/neutral point.")
LEVEL_NOTE = ("trusted: the formula table in this file (docstrings of add_covariate_effect, add_iiv, error model setters, absorption "
              "setters), vlib/ireval.py; the 'median' of a covariate is accepted as either the median over records or over "
              "individual baselines")
RULE = ("states = start models (+ structural successors in thorough); cases = every (parameter, covariate, effect, operation), "
        "(parameter, eta form), eta transformation, error model (with options), absorption/transit request; non-trivial = the extension "
        "was accepted and at least one probe value was compared")
ASSUMPTIONS = ["probe values: covariate in {ref-1, ref, ref+0.5, ref+2} (continuous) / each category; eta in {0, 0.3, -0.2}; eps in {0, +-0.1}",
               "new effect parameters are set to 0.37, -0.21, ... before probing so that the formula is visible"]
BOUNDS = {"quick": "2 covariate-free start models + 6 structural successors; full extension alphabet", "thorough": "same states; identical"}


def states(tier):
    st = [("pheno_nocov", ()), ("pheno_nocov_oral", ())]
    if True:
        for lab in ("periph_add", "elim_mm", "transits_3", "lag_on", "abs_zo", "bio_add"):
            st.append(("pheno_nocov_oral", (lab,)))
    # states that already carry one covariate effect on a parameter (the next effect on the same parameter is merged into
    # the existing statement; additive after multiplicative and the other way round)
    for lab in LOCAL_OPS:
        st.append(("pheno_nocov", (lab,)))
    return st


LOCAL_OPS = {
    "iov_cl": ("iov", "CL"),  # inter-occasion variability already on one parameter
    "cov_cl_wgt_lin_add": ("CL", "WGT", "lin", "+"),
    "cov_cl_apgr_exp_mul": ("CL", "APGR", "exp", "*"),
    "cov_vc_wgt_pow_mul": ("VC", "WGT", "pow", "*"),
    "cov_vc_apgr_lin_add": ("VC", "APGR", "lin", "+"),
}


def build_state(hist):
    import warnings

    import pharmpy.modeling as pm
    from vlib import mgraph

    start, labels = hist
    m = mgraph.build((start, ()))
    for lab in labels:
        if m is None:
            return None
        if lab in LOCAL_OPS and LOCAL_OPS[lab][0] == "iov":
            with warnings.catch_warnings():
                warnings.simplefilter("ignore")
                m = pm.add_iov(m.replace(dataset=m.dataset.copy()), "FA1", list_of_parameters=[LOCAL_OPS[lab][1]])
        elif lab in LOCAL_OPS:
            p, c, e, op = LOCAL_OPS[lab]
            with warnings.catch_warnings():
                warnings.simplefilter("ignore")
                m = pm.add_covariate_effect(m.replace(dataset=m.dataset.copy()), p, c, e, op)
                # give the existing effect a visible size
                new = [q for q in m.parameters.names if q.startswith("POP_" + p + c) or (p + c) in q]
                m = pm.set_initial_estimates(m, {q: 0.19 for q in new if m.parameters[q].lower <= 0.19 <= m.parameters[q].upper})
        else:
            m, _ = mgraph.apply(m, lab)
    return m


def cases(tier):
    out = []
    for p, c, e, op in itertools.product(("CL", "VC"), ("WGT", "APGR"), ("lin", "cat", "cat2", "piece_lin", "exp", "pow"), ("*", "+")):
        out.append(("cov", p, c, e, op))
    for p, form in itertools.product(("CL", "VC", "MAT"), ("add", "prop", "exp", "log", "re_log")):
        out.append(("iiv", p, form))
    for t in ("boxcox", "tdist", "john_draper"):
        out.append(("etatrans", t))
    for em in ("additive", "proportional", "combined", "additive_direct", "proportional_direct", "combined_direct", "additive_log", "proportional_log", "combined_log", "power", "iiv_on_ruv", "weighted", "dtbs",
               "time_varying", "time_varying_combined"):
        out.append(("error", em))
    out.append(("allometry",))
    # likelihood-based handling of observations below the limit of quantification: how the limit is given x method
    for src in ("lloq_option", "lloq_column", "blq_column+lloq_option", "blq_column+lloq_column"):
        for method in ("m3", "m4"):
            out.append(("blq", src, method))
    out.append(("iov",))
    out.append(("iov", "CL"))
    out.append(("iov", "VC"))
    for a in ("abs_fo", "abs_zo", "abs_seq", "transits_1", "transits_3", "transits_3_nodepot"):
        out.append(("absorption", a))
    return out


def shards(tier):
    out = []
    for st in states(tier):
        cs = cases(tier)
        for i in range(0, len(cs), 4):
            out.append((st, cs[i:i + 4]))
    return out


# ------------------------------------------------------------------------------- probing helpers
def param_value(model, name, rec, env_over=None):
    """value of symbol `name` (pre-ODE statements) for one data record"""
    from vlib import ireval
    from vlib.xeval import ev

    env = ireval.base_env(model)
    if env_over:
        env.update(env_over)
    env.update(rec)
    for s in model.statements.before_odes if model.statements.ode_system is not None else model.statements:
        env[str(s.symbol)] = ev(s.expression, env)
    return env[name], env


def first_record(model):
    row = model.dataset.iloc[0].to_dict()
    return {k: float(v) for k, v in row.items()}


def medians(model, cov):
    import numpy as np

    df = model.dataset
    idc = model.datainfo.id_column.name
    rec = float(np.median(df[cov]))
    base = float(np.median(df.groupby(idc)[cov].first()))
    ind = float(np.median(df.groupby(idc)[cov].median()))
    return sorted({rec, base, ind})


def new_params(old, new):
    return [p for p in new.parameters.names if p not in old.parameters.names]


# ------------------------------------------------------------------------------- the cases
def run_case(model, case):
    """-> (status, failures, compared)"""
    import warnings

    import pharmpy.modeling as pm
    from pharmpy.model import ModelError
    from vlib import ireval, mgraph
    from vlib.xeval import Undefined, close

    kind = case[0]
    fails = []
    compared = 0

    def call(f, *a, **kw):
        m = model.replace(dataset=model.dataset.copy())
        try:
            with warnings.catch_warnings():
                warnings.simplefilter("ignore")
                with mgraph.time_limit(30):
                    return f(m, *a, **kw), "ok"
        except mgraph.CallTimeout:
            return None, "refused:timeout"
        except Exception as e:  # C09 is not about totality: any refusal ends the case
            return None, f"refused:{type(e).__name__}"

    try:
        if kind == "cov":
            _, p, cov, eff, op = case
            if model.statements.find_assignment(p) is None:
                return "n/a", [], 0
            m2, st = call(pm.add_covariate_effect, p, cov, eff, op)
            if m2 is None:
                return st, [], 0
            thetas = new_params(model, m2)
            if not thetas:
                return "n/a:no-new-parameter", [], 0
            vals = {t: v for t, v in zip(thetas, (0.37, -0.21, 0.13, 0.29, -0.17, 0.23, 0.31, -0.11))}
            rec0 = first_record(model)
            cats = sorted(set(float(x) for x in model.dataset[cov]))
            meds = medians(model, cov)
            probes = sorted(set([meds[0] - 1, meds[0] + 0.5, meds[0] + 2] + meds)) if eff not in ("cat", "cat2") else cats
            ratios = {}
            for c in probes:
                rec = dict(rec0)
                rec[cov] = c
                a, _ = param_value(model, p, rec)
                b, _ = param_value(m2, p, rec, vals)
                ratios[c] = (a, b)
                compared += 1
            neutral = 1.0 if op == "*" else 0.0

            def eff_of(c):
                a, b = ratios[c]
                return b / a if op == "*" else b - a

            th = list(vals.values())
            if eff in ("cat", "cat2"):
                one = 1.0
                ref_cats = [c for c in cats if close(eff_of(c), one, 1e-9)]
                if len(ref_cats) != 1:
                    fails.append(f"categorical effect equals 1 for categories {ref_cats} (exactly one reference category expected); effects {[round(eff_of(c), 6) for c in cats]}")
                else:
                    mode = float(model.dataset[cov].mode().iloc[0])
                    idc = model.datainfo.id_column.name
                    mode_b = float(model.dataset.groupby(idc)[cov].first().mode().iloc[0])
                    if ref_cats[0] not in (mode, mode_b):
                        fails.append(f"reference category is {ref_cats[0]}, most common category is {mode} (records) / {mode_b} (individuals)")
                    others = [c for c in cats if c != ref_cats[0]]
                    got = sorted(round(eff_of(c), 9) for c in others)
                    want = sorted(round((1 + v) if eff == "cat" else v, 9) for v in th[: len(others)])
                    if got != want:
                        fails.append(f"effects of the other categories {got} != documented {'1+theta' if eff == 'cat' else 'theta'} = {want}")
            else:
                refs = [m for m in meds if close(eff_of(m), 1.0, 1e-9)]
                if not refs:
                    fails.append(f"effect is not 1 at the covariate median (candidates {meds}): effect values {[round(eff_of(m), 6) for m in meds]}")
                else:
                    ref = refs[0]
                    for c in probes:
                        want = None
                        if eff == "lin":
                            want = 1 + th[0] * (c - ref)
                        elif eff == "exp":
                            want = math.exp(th[0] * (c - ref))
                        elif eff == "pow":
                            want = (c / ref) ** th[0] if c > 0 else None
                        elif eff == "piece_lin":
                            want = 1 + (th[0] if c <= ref else th[1]) * (c - ref)
                        if want is None:
                            continue
                        got = eff_of(c)
                        if not close(got, want, 1e-8):
                            fails.append(f"effect at {cov}={c}: {got:.8g}, documented formula gives {want:.8g} (reference {ref}, theta {th[:2]})")
                            break
            # removal restores
            m3, st3 = None, None
            try:
                m3 = pm.remove_covariate_effect(m2, p, cov)
            except Exception as e:
                st3 = f"{type(e).__name__}: {e}"
            if m3 is not None:
                for c in probes[:2]:
                    rec = dict(rec0)
                    rec[cov] = c
                    a, _ = param_value(model, p, rec)
                    b, _ = param_value(m3, p, rec)
                    if not close(a, b, 1e-9):
                        fails.append(f"remove_covariate_effect does not restore {p}: {b} vs {a} at {cov}={c}")
                        break
            elif st3:
                fails.append(f"remove_covariate_effect after add raises {st3[:100]}")
        elif kind == "iiv":
            _, p, form = case
            if model.statements.find_assignment(p) is None:
                return "n/a", [], 0
            base = pm.remove_iiv(model, p) if p in pm.get_individual_parameters(model, "iiv") else model
            m2, st = call(lambda m, *a: pm.add_iiv(pm.remove_iiv(m, p) if p in pm.get_individual_parameters(m, "iiv") else m, p, form))
            if m2 is None:
                return st, [], 0
            new_eta = [n for n in m2.random_variables.etas.names if n not in base.random_variables.etas.names]
            if len(new_eta) != 1:
                fails.append(f"add_iiv created etas {new_eta}")
                return "ok", fails, compared
            rec0 = first_record(model)
            a, _ = param_value(base, p, rec0)
            for eta in (0.0, 0.3, -0.2):
                b, _ = param_value(m2, p, rec0, {new_eta[0]: eta})
                compared += 1
                if form == "add":
                    want = a + eta
                elif form == "prop":
                    want = a * (1 + eta)
                elif form == "exp":
                    want = a * math.exp(eta)
                elif form == "log":
                    want = a * math.exp(eta) / (1 + math.exp(eta)) if eta != 0 else None
                else:
                    if not (0 < a < 1):
                        want = None
                    else:
                        phi = math.log(a / (1 - a))
                        want = math.exp(phi * eta) / (1 + math.exp(phi * eta)) if eta != 0 else None
                if eta == 0.0 and form in ("add", "prop", "exp") and not close(b, a, 1e-9):
                    fails.append(f"{p} with {form} IIV at eta=0 is {b}, without IIV {a}")
                    break
                if want is not None and not close(b, want, 1e-8):
                    fails.append(f"{p} with {form} IIV at eta={eta}: {b:.8g}, documented formula gives {want:.8g}")
                    break
        elif kind == "etatrans":
            f = {"boxcox": pm.transform_etas_boxcox, "tdist": pm.transform_etas_tdist, "john_draper": pm.transform_etas_john_draper}[case[1]]
            m2, st = call(f)
            if m2 is None:
                return st, [], 0
            envs = mgraph.grid_envs(model)[:1]
            a = mgraph.observe(model, envs)
            e2 = [(l, dict(ireval.base_env(m2), **{k: v for k, v in e.items() if k in m2.parameters.names or k in m2.random_variables.names})) for l, e in envs]
            b = mgraph.observe(m2, e2)
            compared += 1
            d = mgraph.same_observations(a, b)
            if d:
                fails.append(f"predictions at eta = 0 change: {d}")
        elif kind == "allometry":
            m2, st = call(pm.add_allometry, allometric_variable="WGT", reference_value=1.4)
            if m2 is None:
                return st, [], 0
            rec0 = first_record(model)
            rec0["WGT"] = 1.4
            for p in pm.get_individual_parameters(model):
                a, _ = param_value(model, p, rec0)
                b, _ = param_value(m2, p, rec0)
                compared += 1
                if not close(a, b, 1e-9):
                    fails.append(f"{p} at WGT == reference value: {b} vs {a} without allometry")
            rec1 = dict(rec0)
            rec1["WGT"] = 2.8
            for p, expo in (("CL", 0.75), ("VC", 1.0)):
                if model.statements.find_assignment(p) is None:
                    continue
                a, _ = param_value(model, p, rec1)
                b, _ = param_value(m2, p, rec1)
                compared += 1
                if pm.has_covariate_effect(model, p, "WGT"):
                    # documented: "If there already exists a covariate effect (or allometric scaling) on a parameter with the
                    # specified allometric variable, nothing will be added."
                    if not close(b, a, 1e-9):
                        fails.append(f"{p} already has an effect of WGT, yet add_allometry changes it: ratio {b / a:.6g} at WGT = 2 x reference")
                elif not close(b, a * 2.0**expo, 1e-9):
                    fails.append(f"{p} at WGT = 2 x reference: ratio {b / a:.6g}, documented 2**{expo}")
        elif kind == "blq":
            _, src, method = case
            st, bf, bc = check_blq(model, src, method, call)
            fails += bf
            compared += bc
            if st != "ok":
                return st, fails, compared
        elif kind == "iov":
            if len(case) > 1:
                m2, st = call(pm.add_iov, "FA1", list_of_parameters=[case[1]])
            else:
                m2, st = call(pm.add_iov, "FA1")
            if m2 is None:
                return st, [], 0
            # neutral at the reference: with the NEW etas at 0 the model function is the old one at every value of the old etas
            envs = mgraph.grid_envs(model)
            a = mgraph.observe(model, envs)
            keep = set(m2.parameters.names) | set(m2.random_variables.names)
            e2 = [(l, dict(ireval.base_env(m2), **{k: v for k, v in e.items() if k in keep})) for l, e in envs]
            b = mgraph.observe(m2, e2)
            compared += 1
            d = mgraph.same_observations(a, b)
            if d:
                fails.append(f"predictions with the new etas at 0 change after add_iov: {d}")
        elif kind == "error":
            em = case[1]
            table = {
                # every setter starts from the model without error model (a setter returns a model that already has
                # the requested error model unchanged) and also from the model as it is
                "additive": (lambda m: pm.set_additive_error_model(pm.remove_error_model(m)), {}),
                "proportional": (lambda m: pm.set_proportional_error_model(pm.remove_error_model(m)), {}),
                "combined": (lambda m: pm.set_combined_error_model(pm.remove_error_model(m)), {}),
                "additive_direct": (pm.set_additive_error_model, {}), "proportional_direct": (pm.set_proportional_error_model, {}),
                "combined_direct": (pm.set_combined_error_model, {}),
                # the model already has a proportional error model; the setters return such a model unchanged, so the
                # log-scale variants start from the model without error model
                "additive_log": (lambda m, **kw: pm.set_additive_error_model(pm.remove_error_model(m), **kw), {"data_trans": "log(Y)"}),
                "proportional_log": (lambda m, **kw: pm.set_proportional_error_model(pm.remove_error_model(m), **kw), {"data_trans": "log(Y)"}),
                "combined_log": (lambda m, **kw: pm.set_combined_error_model(pm.remove_error_model(m), **kw), {"data_trans": "log(Y)"}),
                "power": (lambda m: pm.set_power_on_ruv(pm.set_proportional_error_model(m)), {}),
                "iiv_on_ruv": (pm.set_iiv_on_ruv, {}), "weighted": (pm.set_weighted_error_model, {}), "dtbs": (pm.set_dtbs_error_model, {}),
                "time_varying": (lambda m: pm.set_time_varying_error_model(m, cutoff=3.0), {}),
                "time_varying_combined": (lambda m: pm.set_combined_error_model(pm.set_time_varying_error_model(m, cutoff=3.0)), {}),
            }
            f, kw = table[em]
            m2, st = call(f, **kw)
            if m2 is None:
                return st, [], 0
            fails += check_error_model(m2, em)
            compared += 1
        elif kind == "absorption":
            a = case[1]
            if a.startswith("transits") and (pm.has_zero_order_absorption(model) or pm.has_seq_zo_fo_absorption(model)):
                return "n/a:excluded-combination", [], 0  # ZO absorption with transits is documented as excluded (see C08)
            f = {"abs_fo": pm.set_first_order_absorption, "abs_zo": pm.set_zero_order_absorption, "abs_seq": pm.set_seq_zo_fo_absorption,
                 "transits_1": lambda m: pm.set_transit_compartments(m, 1), "transits_3": lambda m: pm.set_transit_compartments(m, 3),
                 "transits_3_nodepot": lambda m: pm.set_transit_compartments(m, 3, keep_depot=False)}[a]
            m2, st = call(f)
            if m2 is None:
                return st, [], 0
            fails += check_absorption(m2, a)
            compared += 1
    except (Undefined, ArithmeticError, ireval.Unsupported) as e:
        return "skipped", [], compared
    return "ok", fails[:10], compared


def check_blq(model, src, method, call):
    """documented (transform_blq): M3: Y = PHI((LLOQ - IPRED)/SD) for a record below the limit, M4: (PHI((LLOQ - IPRED)/SD) -
    PHI(-IPRED/SD)) / (1 - PHI(-IPRED/SD)); SD = standard deviation of the residual error at IPRED; records above the limit keep
    their error model.  A BLQ column only says WHICH records are below the limit; the limit is the lloq option / LLOQ column."""
    import pharmpy.modeling as pm
    from pharmpy.model import ColumnInfo
    from vlib import ireval
    from vlib.xeval import _phi, close, ev

    LIMIT = 12.5
    fails = []
    m0 = model
    df = m0.dataset.copy()
    di = m0.datainfo
    lloq = None
    if "blq_column" in src:
        df["BLQ"] = ((df["DV"] < LIMIT) & (df["AMT"] == 0)).astype(int)
        di = di + ColumnInfo.create("BLQ", type="blq")
    if "lloq_column" in src:
        df["LLOQ"] = LIMIT
        di = di + ColumnInfo.create("LLOQ", type="lloq")
    if "lloq_option" in src:
        lloq = LIMIT
    try:
        m0 = m0.replace(dataset=df, datainfo=di)
    except Exception as e:
        return f"refused:{type(e).__name__}", [], 0
    m2, st = call(lambda m: pm.transform_blq(m0, method=method, lloq=lloq))
    if m2 is None:
        return st, [], 0
    dv = list(m0.dependent_variables.keys())[0]
    epss0 = m0.random_variables.epsilons.names
    base0, base2 = ireval.base_env(m0), ireval.base_env(m2)
    amt_names = [str(c) for c in m0.statements.ode_system.amounts]

    def Y(m, base, amount, eps, rec):
        env = dict(base)
        env.update(rec)
        env["t"] = rec.get("TIME", 0.0)
        for s in m.statements.before_odes:
            env[str(s.symbol)] = ev(s.expression, env)
        for a in amt_names:
            env[a] = amount
        for n in m.random_variables.epsilons.names:
            env[n] = eps
        for s in m.statements.after_odes:
            env[str(s.symbol)] = ev(s.expression, env)
        return env[str(dv)]

    compared = 0
    rec0 = first_record(m0)
    rec0["TIME"] = 5.0
    for amount in (20.0, 55.0):
        for below in (True, False):
            rec = dict(rec0)
            rec["DV"] = LIMIT - 2.0 if below else LIMIT + 5.0
            if "blq_column" in src:
                rec["BLQ"] = 1.0 if below else 0.0
            if "lloq_column" in src:
                rec["LLOQ"] = LIMIT
            ipred = Y(m0, base0, amount, 0.0, rec)
            # residual standard deviation at this prediction: sqrt(sum (dY/deps_k)^2 * var_k), by central differences
            var = 0.0
            for dist in m0.random_variables.epsilons:
                nm = dist.names[0]
                env_eps = {n: 0.0 for n in epss0}
                h = 1e-4

                def yk(v):
                    env = dict(base0)
                    env.update(rec)
                    env["t"] = rec["TIME"]
                    for s in m0.statements.before_odes:
                        env[str(s.symbol)] = ev(s.expression, env)
                    for a in amt_names:
                        env[a] = amount
                    for n in epss0:
                        env[n] = v if n == nm else 0.0
                    for s in m0.statements.after_odes:
                        env[str(s.symbol)] = ev(s.expression, env)
                    return env[str(dv)]

                d = (yk(h) - yk(-h)) / (2 * h)
                var += d * d * float(ev(dist.variance, base0))
            sd = math.sqrt(var)
            got = Y(m2, base2, amount, 0.3 if not below else 0.0, rec)
            compared += 1
            if below:
                cumd = _phi((LIMIT - ipred) / sd)
                if method == "m3":
                    want = cumd
                else:
                    cz = _phi(-ipred / sd)
                    want = (cumd - cz) / (1 - cz)
                if not close(got, want, 1e-6):
                    fails.append(f"{method} with {src}: Y of a record below the limit is {got:.8g}, documented likelihood gives {want:.8g} "
                                 f"(IPRED {ipred:.6g}, SD {sd:.6g}, limit {LIMIT})")
            else:
                want = Y(m0, base0, amount, 0.3, rec)
                if not close(got, want, 1e-9):
                    fails.append(f"{method} with {src}: Y of a record above the limit is {got:.8g}, the error model gives {want:.8g}")
    return "ok", fails, compared


def check_error_model(m2, em):
    """Y as a function of the prediction F and the epsilons (probed numerically)"""
    from vlib import ireval
    from vlib.xeval import close, ev

    fails = []
    dv = list(m2.dependent_variables.keys())[0]
    y = m2.statements.error.full_expression(dv) if m2.statements.ode_system is not None else None
    stats = m2.statements.after_odes if m2.statements.ode_system is not None else m2.statements
    epss = m2.random_variables.epsilons.names
    base = ireval.base_env(m2)
    rec = first_record(m2)
    rec["TIME"] = 5.0
    amt_names = [str(c) for c in m2.statements.ode_system.amounts] if m2.statements.ode_system is not None else []

    def Y(amount, eps):
        env = dict(base)
        env.update(rec)
        env["t"] = rec.get("TIME", 0.0)
        for s in (m2.statements.before_odes if m2.statements.ode_system is not None else []):
            env[str(s.symbol)] = ev(s.expression, env)
        for a in amt_names:
            env[a] = amount
        for n, v in zip(epss, eps):
            env[n] = v
        for s in stats:
            env[str(s.symbol)] = ev(s.expression, env)
        return env[str(dv)], env

    if em.startswith("time_varying"):
        # documented: before the cut-off every residual term is multiplied by the time_varying theta, after it the error model is
        # the plain one (proportional: F*eps; combined: F*eps_p + eps_a)
        tv = [n for n in m2.parameters.names if "time_varying" in n.lower()]
        if not tv:
            return ["time varying error model: no time_varying parameter was added"]
        base[tv[0]] = 0.6
        for amount in (20.0, 55.0):
            d = {}
            for when, t in (("before", 1.0), ("after", 5.0)):
                rec["TIME"] = t
                f0, _ = Y(amount, [0.0] * len(epss))
                for k in range(len(epss)):
                    e = [0.0] * len(epss)
                    e[k] = 0.1
                    d[(when, k)] = (Y(amount, e)[0] - f0) / 0.1
                d[(when, "f")] = f0
            f0 = d[("after", "f")]
            after = sorted(d[("after", k)] for k in range(len(epss)))
            want_after = sorted([f0, 1.0]) if em.endswith("combined") else [f0] * len(epss)
            if len(after) != len(want_after) or any(not close(a, b, 1e-7) for a, b in zip(after, want_after)):
                fails.append(f"{em}: after the cut-off dY/deps = {after} at F = {f0:.6g}, expected {want_after}")
            for k in range(len(epss)):
                if not close(d[("before", k)], 0.6 * d[("after", k)], 1e-7):
                    fails.append(f"{em}: before the cut-off dY/d{epss[k]} = {d[('before', k)]:.6g}, expected time_varying x the value after "
                                 f"the cut-off = {0.6 * d[('after', k)]:.6g}")
        return fails[:10]
    for amount in (20.0, 55.0):
        f0, env0 = Y(amount, [0.0] * len(epss))
        em = em.replace("_direct", "")
        if em in ("additive", "proportional", "combined"):
            for k in range(len(epss)):
                e = [0.0] * len(epss)
                e[k] = 0.1
                yk, _ = Y(amount, e)
                d = (yk - f0) / 0.1
                if em == "additive" and not close(d, 1.0, 1e-7):
                    fails.append(f"additive error: dY/d{epss[k]} = {d:.6g} at F = {f0:.6g} (1 expected)")
                if em == "proportional" and not close(d, f0, 1e-7):
                    fails.append(f"proportional error: dY/d{epss[k]} = {d:.6g} at F = {f0:.6g} (F expected)")
                if em == "combined" and not (close(d, f0, 1e-7) or close(d, 1.0, 1e-7)):
                    fails.append(f"combined error: dY/d{epss[k]} = {d:.6g} at F = {f0:.6g} (F or 1 expected)")
            if em == "combined" and len(epss) == 2:
                ds = []
                for k in range(2):
                    e = [0.0, 0.0]
                    e[k] = 0.1
                    ds.append((Y(amount, e)[0] - f0) / 0.1)
                if not ((close(ds[0], f0, 1e-7) and close(ds[1], 1.0, 1e-7)) or (close(ds[1], f0, 1e-7) and close(ds[0], 1.0, 1e-7))):
                    fails.append(f"combined error: derivatives {ds} at F={f0:.6g} are not (F, 1)")
            if em == "additive" and len(epss) != 1:
                fails.append(f"additive error model has epsilons {epss}")
        elif em in ("additive_log", "proportional_log", "combined_log"):

            # on the log scale: Y = log(F) + g(F)*eps
            base_f = amount / env0.get("S1", env0.get("VC", 1.0)) if False else None
            e = [0.0] * len(epss)
            e[0] = 0.1
            y1, _ = Y(amount, e)
            d = (y1 - f0) / 0.1
            if em == "proportional_log" and not close(d, 1.0, 1e-7):
                fails.append(f"proportional error on log scale: dY/deps = {d:.6g} (1 expected)")
            if em == "additive_log":
                # dY/deps = 1/F where F = exp(Y at eps 0)
                if not close(d, 1.0 / math.exp(f0), 1e-6):
                    fails.append(f"additive error on log scale: dY/deps = {d:.6g}, 1/F = {1.0 / math.exp(f0):.6g}")
        else:
            # other error models: the observation without residual error is unchanged in eps-free evaluation
            if not math.isfinite(f0):
                fails.append(f"{em}: Y is not finite at eps = 0")
    return fails[:10]


def check_absorption(m2, a):
    """documented relations: KA = 1/MAT, zero-order duration = 2*MAT, transit rate = (n + [depot kept ? 0 : 0]) / MDT"""
    from vlib import ireval
    from vlib.xeval import close, ev

    fails = []
    rec = first_record(m2)
    base = ireval.base_env(m2)
    env = dict(base)
    env.update(rec)
    for s in m2.statements.before_odes:
        env[str(s.symbol)] = ev(s.expression, env)
    cs = m2.statements.ode_system
    central = cs.central_compartment
    if a in ("abs_fo", "abs_seq"):
        depot = cs.find_depot(m2.statements)
        if depot is None:
            return [f"{a}: no depot compartment found"]
        ka = ev(cs.get_flow(depot, central), env)
        if "MAT" in env and not close(ka, 1.0 / env["MAT"], 1e-9):
            fails.append(f"{a}: absorption rate {ka:.8g} != 1/MAT = {1.0 / env['MAT']:.8g}")
    if a in ("abs_zo", "abs_seq"):
        dose = cs.dosing_compartments[0].doses[0]
        dur = getattr(dose, "duration", None)
        if dur is None:
            fails.append(f"{a}: the dose is not a zero-order infusion with a duration")
        elif "MAT" in env:
            d = ev(dur, env)
            ok = close(d, 2 * env["MAT"], 1e-9) or (a == "abs_seq" and "MDT" in env and close(d, 2 * env["MDT"], 1e-9))
            if not ok:
                fails.append(f"{a}: infusion duration {d:.8g} != 2*MAT = {2 * env['MAT']:.8g}")
    if a.startswith("transits"):
        n = 1 if a == "transits_1" else 3
        tr = cs.find_transit_compartments(m2.statements)
        if len(tr) != n:
            fails.append(f"{a}: {len(tr)} transit compartments found")
        elif "MDT" in env:
            for t in tr:
                outs = cs.get_compartment_outflows(t)
                r = ev(outs[0][1], env)
                if not close(r, n / env["MDT"], 1e-9):
                    fails.append(f"{a}: transit rate {r:.8g} != n/MDT = {n / env['MDT']:.8g}")
                    break
    return fails


# ------------------------------------------------------------------------------- runner API
def run_shard(shard, tier):
    from vlib import mgraph

    hist, cs = shard
    res = {"states": 0, "transitions": 0, "evaluations": 0, "distinct_nontrivial": 0, "violations": [], "samples": [],
           "outcomes": {}, "traces_validated_against_impl": 0, "values_compared": 0}
    model = build_state(hist)
    if model is None:
        return res
    for case in cs:
        status, fails, compared = run_case(model, case)
        res["states"] += 1
        res["transitions"] += 1
        res["evaluations"] += 1
        res["values_compared"] += compared
        key = f"{case[0]}:{status.split(':')[0]}" if not fails else f"{case[0]}:mismatch"
        res["outcomes"][key] = res["outcomes"].get(key, 0) + 1
        if status == "ok" and compared and not fails:
            res["distinct_nontrivial"] += 1
            res["traces_validated_against_impl"] += 1
        for f in fails[:10]:
            res["violations"].append({"history": [hist[0], list(hist[1])], "case": list(case),
                                      "what": f"[{hist[0]}{''.join(' -> ' + x for x in hist[1])} : {' '.join(map(str, case))}] {f}",
                                      "class": f"{case[0]}:{f[:50]}"})
    res["samples"].append(f"{hist[0]} {' '.join(map(str, cs[0]))}")
    return res


def replay(w):
    from vlib import mgraph

    start, labels = w["history"]
    model = build_state((start, tuple(labels)))
    if model is None:
        return ["replay: history can no longer be built"]
    return run_case(model, tuple(w["case"]))[1]


def classify(w):
    from checks import c09_patterns

    return c09_patterns.classify(w)
