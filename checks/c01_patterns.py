"""Narrow classifiers for the known findings of C01 (shapes of the *input text*, see known_findings.json).
A witness is attributed to a known finding only when its input has exactly that syntactic shape."""
import re

SIGNED_LITERAL_POW = re.compile(r"(?:^|[=(*/+\-,]|\*\*)\s*-\s*(?:\d+\.?\d*|\.\d+)(?:[EDed][+-]?\d+)?\s*\*\*")


def _expr_reads(e, names):
    k = e[0]
    if k == "var":
        return e[1] in names
    if k == "num":
        return False
    if k == "call":
        return any(_expr_reads(a, names) for a in e[2])
    return any(_expr_reads(x, names) for x in e[1:] if isinstance(x, tuple))


def _block_shapes(prog, text_has_then):
    from vlib import nmcode

    shapes = set()
    for st in prog:
        if st[0] != "if":
            continue
        branches = list(st[1]) + ([(None, st[2])] if st[2] is not None else [])
        is_block = len(branches) > 1 or len(st[1][0][1]) != 1 or text_has_then
        assigned = set()
        for _, body in branches:
            for s in body:
                assigned |= nmcode.assigned_names(s)
        for cond, body in branches:
            if any(s[0] == "if" for s in body):
                shapes.add("blockif_nested_if")
            names = [s[1][1] for s in body if s[0] == "assign" and s[1][0] == "var"]
            if len(names) != len(set(names)):
                shapes.add("blockif_symbol_assigned_twice_in_branch")
            if is_block and cond is not None and _expr_reads(cond, assigned):
                shapes.add("blockif_condition_reads_symbol_assigned_in_block")
        # emission order of the per-symbol Piecewise statements = order of first appearance in the block
        order = []
        for _, body in branches:
            for s in body:
                if s[0] == "assign" and s[1][0] == "var" and s[1][1] not in order:
                    order.append(s[1][1])
        for cond, body in branches:
            for i, s in enumerate(body):
                if s[0] != "assign" or s[1][0] != "var":
                    continue
                tgt = s[1][1]
                for j, t in enumerate(body):
                    if j == i or t[0] != "assign" or t[1][0] != "var":
                        continue
                    src = t[1][1]
                    if src == tgt or not _expr_reads(s[2], {src}):
                        continue
                    # s reads src; t assigns src in the same branch
                    if (j < i and order.index(src) > order.index(tgt)) or (j > i and order.index(src) < order.index(tgt)):
                        shapes.add("blockif_piecewise_order_conflicts_with_branch_sequence")
    return shapes


def classify(w):
    k = w.get("kind")
    if k == "code":
        body = w["body"]
        if "MOD(" in body.upper():
            return "fortran_mod_sign_of_dividend"
        if any(SIGNED_LITERAL_POW.search(line.split("=", 1)[-1] if "=" in line else line) for line in body.upper().splitlines()):
            return "signed_literal_base_of_power"
        from vlib import nmcode

        try:
            prog = nmcode.parse_code(body)
        except Exception:
            return None
        shapes = _block_shapes(prog, "THEN" in body.upper())
        for s in ("blockif_nested_if", "blockif_symbol_assigned_twice_in_branch", "blockif_condition_reads_symbol_assigned_in_block",
                  "blockif_piecewise_order_conflicts_with_branch_sequence"):
            if s in shapes:
                return s
        return None
    if k == "omega":
        if any(re.search(r"SAME\s*\(\s*([2-9]|\d\d+)\s*\)", r.upper()) for r in w["records"]) and "etas read" in w["what"]:
            return "omega_same_count_ignored"
    return None
