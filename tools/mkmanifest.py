#!/venv/bin/python
"""Regenerate MANIFEST.json from the check modules present in checks/ (each declares its own
level text, trusted base and technique).  Properties without a check module are listed under
not_applicable with the reason given in PENDING below."""
import importlib, json, os, sys

HERE = os.path.dirname(os.path.dirname(os.path.abspath(__file__)))
sys.path.insert(0, HERE)
props = [json.loads(l) for l in open(os.path.join(HERE, "properties.jsonl"))]
PENDING = {}
pend_file = os.path.join(HERE, "tools", "pending.json")
if os.path.exists(pend_file):
    PENDING = json.load(open(pend_file))
READY = set(json.load(open(os.path.join(HERE, "tools", "ready.json"))))  # checks vetted by the main session
checks, na, engines = [], [], {}
for p in props:
    pid = p["id"]
    path = os.path.join(HERE, "checks", pid.lower() + ".py")
    if not os.path.exists(path) or pid not in READY:
        na.append({"property_id": pid, "reason": PENDING.get(pid, "no check built yet for this property in this tree (work in progress; design in DESIGN.md section %s)" % pid)})
        continue
    src = open(path).read()
    ns = {}
    # read declarative constants without importing pharmpy
    import ast
    tree = ast.parse(src)
    for node in tree.body:
        if isinstance(node, ast.Assign) and len(node.targets) == 1 and isinstance(node.targets[0], ast.Name):
            try:
                ns[node.targets[0].id] = ast.literal_eval(node.value)
            except Exception:
                pass
    checks.append({
        "property_id": pid,
        "quick_cmd": f"./check {pid} --tier quick",
        "thorough_cmd": f"./check {pid} --tier thorough",
        "evidence_file": f"/verif/evidence/{pid}.json",
        "replay_cmd_template": f"./check {pid} --replay {{path}}",
        "engine": ns.get("ENGINE", "enumx"),
        "level_claimed": {"category": ns.get("LEVEL", "model_checking"), "text": ns.get("LEVEL_TEXT", ns.get("RULE", "")), "design_ref": f"DESIGN.md {pid}"},
        "level_note": ns.get("LEVEL_NOTE", "; ".join(ns.get("ASSUMPTIONS", []))),
        "technique": ns.get("TECHNIQUE", "bounded exhaustive enumeration (explicit-state) against a reference model"),
    })
    for e in [ns.get("ENGINE", "enumx")]:
        engines.setdefault(e, []).append(pid)
ENG = {
    "enumx": ("vlib/core.py", "bounded-exhaustive input enumeration organised as a prefix transition system, sharded over 16 processes"),
    "seqx": ("vlib/seqx.py", "explicit-state BFS over operation sequences on real pharmpy objects with canonical state hashing"),
    "schedx": ("vlib/schedx.py", "stateless schedule exploration of the real code under a cooperative scheduler with preemption bounding over a simulated POSIX lock table"),
    "crashfs": ("vlib/crashfs.py", "file-system operation recorder and crash-state materialiser (every prefix x torn last write)"),
}
man = {
    "version": 1,
    "setup_cmd": "true",
    "hooks": {
        "guard": "PHARMPY_VERIF",
        "enable": "no source hooks are needed: all instrumentation is harness-side (private re-loading of modules with shim dependencies, monkey-patching inside the harness process); checks import pharmpy from /repo/src (editable install) in fresh processes",
        "baseline_off_cmd": "cd /repo && /venv/bin/python -m pytest -ra -q -p no:cacheprovider --timeout=900 --continue-on-collection-errors",
        "source_commits": [],
        "add_only": True,
    },
    "engines": [{"name": k, "path": ENG.get(k, ("vlib/core.py", ""))[0], "serves_properties": v, "kind_free_text": ENG.get(k, ("", ""))[1]} for k, v in sorted(engines.items())],
    "checks": checks,
    "notes": "Single entry point ./check <ID> [--tier quick|thorough] [--replay file]; known findings in known_findings.json; design in DESIGN.md.",
    "not_applicable": na,
}
json.dump(man, open(os.path.join(HERE, "MANIFEST.json"), "w"), indent=1)
print("checks:", [c["property_id"] for c in checks], "not_applicable:", len(na))
