#!/bin/bash
# tools/refresh_all.sh [seed]  - run every quick check against /repo, keep the outputs under .scratch/refresh-<seed>/, report
cd /verif
seed=${1:-0}
out=.scratch/refresh-$seed
mkdir -p $out
for n in $(seq -w 1 20); do
  c=C$n
  VERIF_SEED=$seed ./check $c > $out/$c.log 2>&1
  echo "$c exit=$? $(tail -1 $out/$c.log | cut -c1-150)"
  ./tools/knowncov.py $c $out/$c.log | grep -v "NOT HIT: \[\]"
done
