#!/venv/bin/python
"""tools/wtmut.py <file-relative-to-repo> <old> <new> -- <check args...>
Apply a textual mutation in a scratch worktree of /repo (never in /repo itself), run ./check against it, remove the worktree."""
import os, subprocess, sys, tempfile
i = sys.argv.index("--")
f, old, new = sys.argv[1:4]
wt = tempfile.mkdtemp(prefix="wtmut-", dir="/tmp")
os.rmdir(wt)
subprocess.run(["git", "-C", "/repo", "worktree", "add", "-q", wt, "HEAD"], check=True)
try:
    path = os.path.join(wt, f)
    src = open(path).read()
    assert src.count(old) >= 1, "pattern not found"
    open(path, "w").write(src.replace(old, new, 1))
    env = dict(os.environ, VERIF_REPO=wt)
    r = subprocess.run(["/verif/check"] + sys.argv[i + 1:], cwd="/verif", env=env, stdout=subprocess.PIPE, stderr=subprocess.STDOUT, text=True)
    lines = [l for l in r.stdout.splitlines() if "conda" not in l and not l.startswith("KNOWN-FINDING")]
    print("\n".join(l[:300] for l in lines[-8:]))
    print("exit", r.returncode)
finally:
    subprocess.run(["git", "-C", "/repo", "worktree", "remove", "--force", wt])
