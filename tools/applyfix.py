#!/venv/bin/python
"""tools/applyfix.py proposed_fixes/Cnn-slug.md [...]
Apply the diff of each proposed fix to /repo and commit it as its own `fix:` commit; record it as `fixed` in
known_findings.json.  Stops at the first patch that does not apply."""
import json, os, re, subprocess, sys

HERE = os.path.dirname(os.path.dirname(os.path.abspath(__file__)))
kfp = os.path.join(HERE, "known_findings.json")
for md in sys.argv[1:]:
    text = open(md).read()
    title = text.splitlines()[0].lstrip("# ").strip()
    prop = os.path.basename(md).split("-")[0]
    short = re.sub(r"^C\d+\s*[:\-]\s*", "", title)
    short = short.replace("`", "")
    m = re.search(r"```diff\n(.*?)```", text, re.S)
    if not m:
        print("NO DIFF in", md); sys.exit(1)
    diff = m.group(1)
    what = re.search(r"## What fails\s*\n(.*?)(\n## |\Z)", text, re.S)
    body = what.group(1).strip() if what else ""
    body = re.sub(r"`", "", body)
    para = body.split("\n\n")[0]
    p = subprocess.run(["git", "-C", "/repo", "apply", "--whitespace=nowarn", "-"], input=diff, text=True, capture_output=True)
    if p.returncode != 0:
        print("DOES NOT APPLY:", md, p.stderr[:300]); sys.exit(1)
    msg = f"fix: {short[:1].lower() + short[1:]}\n\n{para}\n"
    subprocess.run(["git", "-C", "/repo", "commit", "-qam", msg], check=True)
    h = subprocess.run(["git", "-C", "/repo", "log", "--format=%h", "-1"], capture_output=True, text=True).stdout.strip()
    kf = json.load(open(kfp))
    pat = re.search(r"[Pp]attern name[^`]*`([^`]+)`", text)
    kf["findings"].append({"property": prop, "kind": "fixed", "commit": h, "id": os.path.basename(md)[:-3],
                           "what": short, "line": f"fixed: property={prop} {h} {short}",
                           "pattern_before_fix": pat.group(1) if pat else None,
                           "witness": {"see": "proposed_fixes/" + os.path.basename(md)}})
    json.dump(kf, open(kfp, "w"), indent=1)
    print("committed", h, short[:90])
