#!/venv/bin/python
"""Run the repository's pinned baseline (guard off) and compare with /root/.vp/BASELINE.json.
usage: tools/baseline.py [repo_dir]   exit 0 iff every stable_pass test passes."""
import json, os, subprocess, sys, tempfile
import xml.etree.ElementTree as ET

repo = sys.argv[1] if len(sys.argv) > 1 else "/repo"
base = json.load(open("/root/.vp/BASELINE.json"))
want = set(base["stable_pass"])
fd, xml = tempfile.mkstemp(suffix=".xml"); os.close(fd)
env = dict(os.environ); env.pop("PHARMPY_VERIF", None)
if repo != "/repo":
    env["PYTHONPATH"] = os.path.join(repo, "src")
cmd = ["/venv/bin/python", "-m", "pytest", "-ra", "-q", "-p", "no:cacheprovider", "--timeout=900",
       "--continue-on-collection-errors", f"--junitxml={xml}"]
p = subprocess.run(cmd, cwd=repo, env=env, stdout=subprocess.PIPE, stderr=subprocess.STDOUT, text=True)
passed = set()
for tc in ET.parse(xml).getroot().iter("testcase"):
    if not any(ch.tag in ("failure", "error", "skipped") for ch in tc):
        passed.add(f"{tc.get('classname')}::{tc.get('name')}")
os.unlink(xml)
missing = sorted(want - passed)
print(f"baseline: {len(want & passed)}/{len(want)} stable tests pass; extra passing: {len(passed - want)}")
for m in missing[:20]:
    print("  MISSING", m)
sys.exit(1 if missing else 0)
