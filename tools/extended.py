#!/venv/bin/python
"""Run the repository's *whole* test tree with warnings not turned into errors (the pinned
baseline cannot collect most modules because of deprecation warnings from pandas/altair) and
record/compare the set of failing tests.  Used only to vet `fix:` commits, never as a check.

usage: tools/extended.py record|compare [pytest paths...]
"""
import json, os, subprocess, sys, tempfile
import xml.etree.ElementTree as ET

HERE = os.path.dirname(os.path.abspath(__file__))
STORE = os.path.join(HERE, "extended_baseline.json")
mode = sys.argv[1]
paths = sys.argv[2:] or ["tests"]
fd, xml = tempfile.mkstemp(suffix=".xml"); os.close(fd)
env = dict(os.environ); env.pop("PHARMPY_VERIF", None)
cmd = ["/venv/bin/python", "-m", "pytest", "-q", "-p", "no:cacheprovider", "--timeout=900", "-x" if False else "-q",
       "--continue-on-collection-errors", "-o", "filterwarnings=ignore", f"--junitxml={xml}",
       "--deselect", "tests/internals/fs/test_lock.py"] + paths
try:
    import xdist  # noqa
    cmd += ["-n", "12"]
except ImportError:
    pass
subprocess.run(cmd, cwd="/repo", env=env, stdout=subprocess.DEVNULL, stderr=subprocess.DEVNULL)
res = {}
for tc in ET.parse(xml).getroot().iter("testcase"):
    name = f"{tc.get('classname')}::{tc.get('name')}"
    bad = [ch.tag for ch in tc if ch.tag in ("failure", "error")]
    skipped = any(ch.tag == "skipped" for ch in tc)
    res[name] = "fail" if bad else ("skip" if skipped else "pass")
os.unlink(xml)
if mode == "record":
    json.dump(res, open(STORE, "w"), indent=0, sort_keys=True)
    print("recorded", len(res), "tests;", sum(v == "pass" for v in res.values()), "pass")
else:
    old = json.load(open(STORE))
    newly = sorted(k for k, v in res.items() if v == "fail" and old.get(k) == "pass")
    fixed = sorted(k for k, v in res.items() if v == "pass" and old.get(k) == "fail")
    print(f"ran {len(res)} tests; pass={sum(v == 'pass' for v in res.values())}; newly failing={len(newly)}; newly passing={len(fixed)}")
    for k in newly[:40]:
        print("  NEWLY-FAILING", k)
    sys.exit(1 if newly else 0)
