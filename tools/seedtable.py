#!/venv/bin/python
"""Regenerate section 3.5 of DESIGN.md (which checks catch which independently seeded changes) from seeded/*/meta.json"""
import glob, json, os, re
HERE = os.path.dirname(os.path.dirname(os.path.abspath(__file__)))
rows = []
for d in sorted(glob.glob(os.path.join(HERE, "seeded", "C*"))):
    try:
        m = json.load(open(os.path.join(d, "meta.json")))
    except Exception:
        continue
    v = m.get("verification_by_main_session", {})
    name = os.path.basename(d)
    summ = (m.get("summary") or "").replace("|", "/").replace("\n", " ")[:230]
    needs = (m.get("needs") or "").replace("|", "/").replace("\n", " ")[:200]
    checks = v.get("checks", {})
    det = ", ".join(f"{c}: {'DETECTED' if r['exit'] == 1 else 'missed'}" for c, r in checks.items())
    first = next((r["first"] for r in checks.values() if r["exit"] == 1 and r.get("first")), "")
    first = first.replace("|", "/")[:200]
    ok = v.get("patch_applies") and v.get("demo_with_change_exit") == 1 and v.get("demo_without_change_exit") == 0 and v.get("baseline_with_change")
    rows.append(f"| `{name}` | {summ} | {needs} | {'yes' if ok else 'NO'} | {det} | {first} |")
hist = ""
hp = os.path.join(HERE, "seeded", "HISTORY.md")
if os.path.exists(hp):
    hist = open(hp).read()
sec = ("### 3.5 Independently seeded property-breaking changes and what the checks report\n\n"
       "Each change was produced by a fresh sub-agent that was given only the text of one property and a scratch worktree (nothing from /verif).\n"
       "`tools/seedcheck.py` applies the patch to a fresh worktree of /repo HEAD, requires the pinned 247 tests to pass with it, requires the\n"
       "demonstration to fail with the change and pass without it, then runs the named checks (quick tier) with `VERIF_REPO=<worktree>`.\n"
       "The table shows the state after the strengthening described below it (patch, demonstration and full record: `seeded/<name>/`).\n\n"
       "| seeded change | what was changed | what it needs to show | vetted (tests pass, demo fails/passes) | checks | first violation reported |\n|---|---|---|---|---|---|\n"
       + "\n".join(rows) + "\n\n" + hist)
p = os.path.join(HERE, "DESIGN.md")
s = open(p).read()
if "### 3.5 Independently seeded" in s:
    s = s[: s.index("### 3.5 Independently seeded")].rstrip() + "\n\n" + sec
else:
    s = s.rstrip() + "\n\n" + sec
open(p, "w").write(s)
print(len(rows), "seeded changes tabulated")
