#!/venv/bin/python
"""tools/seedcheck.py <seed_out_dir> <name> <CHECK> [<CHECK>...]
Vet one independently produced property-breaking change and run our checks against it:
 1. fresh scratch worktree of /repo HEAD, apply patch.diff
 2. pinned baseline (247 tests) must still pass with the change
 3. demo.py must exit 1 with the change and 0 on the unchanged tree
 4. run the named checks (quick tier) against the changed worktree, record what they report
 5. store patch.diff, demo.py, meta.json under /verif/seeded/<name>/ ; remove the worktree
"""
import json, os, shutil, subprocess, sys, tempfile, time

src, name, checks = sys.argv[1], sys.argv[2], sys.argv[3:]
wt = tempfile.mkdtemp(prefix="seedwt-", dir="/tmp"); os.rmdir(wt)
subprocess.run(["git", "-C", "/repo", "worktree", "add", "-q", wt, "HEAD"], check=True)
out = {"name": name}
try:
    r = subprocess.run(["git", "-C", wt, "apply", "--whitespace=nowarn", os.path.join(src, "patch.diff")], capture_output=True, text=True)
    out["patch_applies"] = r.returncode == 0
    if r.returncode != 0:
        out["apply_error"] = r.stderr[:300]
    else:
        env = dict(os.environ, PYTHONPATH=os.path.join(wt, "src"))
        env.pop("VERIF_REPO", None)
        b = subprocess.run(["/venv/bin/python", "/verif/tools/baseline.py", wt], capture_output=True, text=True)
        out["baseline_with_change"] = [l for l in b.stdout.splitlines() if l.startswith("baseline")][-1:]
        d1 = subprocess.run(["/venv/bin/python", os.path.join(src, "demo.py")], env=env, capture_output=True, text=True, timeout=900, cwd="/tmp")
        out["demo_with_change_exit"] = d1.returncode
        out["demo_with_change_tail"] = (d1.stdout + d1.stderr).strip().splitlines()[-3:]
        env0 = dict(os.environ, PYTHONPATH="/repo/src")
        d0 = subprocess.run(["/venv/bin/python", os.path.join(src, "demo.py")], env=env0, capture_output=True, text=True, timeout=900, cwd="/tmp")
        out["demo_without_change_exit"] = d0.returncode
        res = {}
        for c in checks:
            t0 = time.time()
            e = dict(os.environ, VERIF_REPO=wt)
            r = subprocess.run(["/verif/check", c], cwd="/verif", env=e, capture_output=True, text=True)
            lines = [l for l in r.stdout.splitlines() if "conda" not in l]
            viol = [l for l in lines if l.startswith("VIOLATION")]
            first = ""
            for i, l in enumerate(lines):
                if l.startswith("VIOLATION") and i + 1 < len(lines):
                    first = lines[i + 1].strip()[:400]
                    break
            res[c] = {"exit": r.returncode, "violations_reported": len(viol), "first": first, "summary": lines[-1][:300] if lines else "", "wall_s": round(time.time() - t0)}
        out["checks"] = res
finally:
    subprocess.run(["git", "-C", "/repo", "worktree", "remove", "--force", wt])
dst = os.path.join("/verif/seeded", name)
os.makedirs(dst, exist_ok=True)
for f in ("patch.diff", "demo.py"):
    if os.path.exists(os.path.join(src, f)):
        shutil.copy(os.path.join(src, f), os.path.join(dst, f))
meta = {}
if os.path.exists(os.path.join(src, "meta.json")):
    try:
        meta = json.load(open(os.path.join(src, "meta.json")))
    except Exception:
        meta = {"raw": open(os.path.join(src, "meta.json")).read()[:2000]}
meta["verification_by_main_session"] = out
json.dump(meta, open(os.path.join(dst, "meta.json"), "w"), indent=1)
print(json.dumps(out, indent=1)[:3000])
