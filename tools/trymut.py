#!/venv/bin/python
"""tools/trymut.py <file-relative-to-/repo> <old> <new> -- <check args...>
Apply a one-line textual mutation to /repo, run ./check ..., always revert."""
import subprocess, sys
i = sys.argv.index("--")
f, old, new = sys.argv[1:4]
path = "/repo/" + f
src = open(path).read()
assert src.count(old) >= 1, "pattern not found"
open(path, "w").write(src.replace(old, new, 1))
try:
    r = subprocess.run(["/verif/check"] + sys.argv[i + 1:], cwd="/verif", stdout=subprocess.PIPE, stderr=subprocess.STDOUT, text=True)
    lines = [l for l in r.stdout.splitlines() if "conda" not in l]
    print("\n".join(lines[-12:]))
    print("exit", r.returncode)
finally:
    open(path, "w").write(src)
    subprocess.run(["git", "-C", "/repo", "status", "--short"])
