#!/usr/bin/env python3
"""tools/knowncov.py <property> <captured output of ./check>
Every finding listed as `known` in known_findings.json must be re-hit (its KNOWN-FINDING line printed) by the run."""
import json, re, sys
prop = sys.argv[1]
k = json.load(open('/verif/known_findings.json'))
want = {f['pattern'] for f in k['findings'] if f['property'] == prop and f['kind'] == 'known'}
out = open(sys.argv[2]).read()
got = set(re.findall(r"KNOWN-FINDING: property=%s .*?\[pattern=([^\]]+)\]" % prop, out))
missing = sorted(want - got)
print(prop, "known listed", len(want), "re-hit", len(got & want), "NOT HIT:", missing)
sys.exit(1 if missing else 0)
